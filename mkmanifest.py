#!/usr/bin/env python3
"""Regenerates /verif/MANIFEST.json from the table below (kept in one place so the
manifest always validates). Run: python3 mkmanifest.py"""
import json, os, subprocess

BASELINE_OFF = "cd /repo && go test -mod=mod -json -vet=off -count=1 -timeout 25m ./..."

# id -> (technique, level text, design ref, level note)
CLAIMED = {
 "C05": ("decision-table extraction from SSA paths (transition, step, fireTransition, emit) compared cell-by-cell with the E37 table, state writes read through the function supervisor.State applies to the raw word (extracted on every run); who-may-write enumeration of supervisor.state; post-close value set of the word versus the old value of every commit CAS; dominance ordering in Close; T7 start/stop lifecycle table",
         "Structural necessary conditions of the E37 state behaviour decided for every path/writer in the source: the full transition and step decision tables, the complete writer set of the state word, what State() reports for every word the code can store, that no write outside the event loop can succeed once the close event has been handled, the notification chain's single-sender/ordering shape and Close's fence→requestClose→wait→stop ordering. Does not decide interleavings or timing.",
         "§4 C05"),
 "C07": ("path enumeration of every send entry point with gate-decision/effect linearisation; who-may-call/send/receive chokepoint enumeration; dispatchFrame decision table (data arm); dominance of the synchronous Selected commit; receive-loop start dominated by the TCP-up commit",
         "Decides for every path of sendWaitReply/sendNoReply/SendAsync/writeFrame that each write/enqueue follows a 'not data' or 'Selected' decision and a live-epoch decision, that the refusing branch returns the not-selected error after exactly one counted drop and no effect, that bytes can reach a socket only through those chokepoints, and the inbound not-selected reject table and commit-before-response ordering. Histories leading to not-selected and State() accuracy are not decided here.",
         "§4 C07"),
 "C08": ("decision-table extraction (dispatchFrame classifier, responders, sendReject, runSelectProcedure, checkSessionID) compared with an E37 oracle on every cell; byte-map (layout) extraction of the control-message factories; accept-loop value-flow",
         "Decides the complete frame-class × state response table of the HSMS-SS receiver and responders, the reject reason/byte-2 selection and the byte layout of every control message the library builds, for all cells of the finite partition the code's comparisons induce. Frame sequences are covered only as (class × logical state); wire ordering of queued responses is not decided.",
         "§4 C08"),
 "C06": ("decision table of sendWaitReply (register/deregister/write order, four-way wait outcomes, timer after write) and of DeliverOwnedFrame/RouteData (exactly one recipient); who-may-send on reply channels; generator writer enumeration; nil-error return analysis of the session send APIs",
         "Decides the structural clauses of reply correlation for every path: the registration key is the written message's own system bytes and is released on every exit, the wait can only end in the five stated outcomes, only secondaries are offered to the registry, a reply channel has a single non-blocking sender and is never closed, each inbound message has exactly one recipient, and generator values come from one Add(1) counter. Peer histories and timing are not decided.",
         "§4 C06"),
 "C09": ("epoch-pinning enumeration (loads of the current generation per function), value-flow of the socket from the epoch parameter to the transport call, who-may-write on per-generation fields, select-case tables of SendAsync/transport.Write, teardown order, reconnect-loop iteration table",
         "Decides that nothing in the source can carry a frame or a reply across generations: one pinned epoch per function, queue/registry/context created only by newEpoch, writes bound to the pinned epoch's socket under its lock, transports writing only to the socket they are handed, waiters released by the pinned generation's context, and generations serialised by the reconnect loop. Drop instants versus in-flight sends (schedules) are not decided.",
         "§4 C09"),
 "C10": ("goroutine launch/join matching (Add-before-go, defer Done, Wait sites), bounded-join recognition, lock pairing and held-region scan for blocking operations, close-once classification of every close(), Open/Close guard path analysis, panic-surface enumeration, late-socket close on the closed-after-dial path",
         "Decides for every goroutine launch, WaitGroup.Wait, mutex acquisition, close() and panic site in the connection/transport packages that it follows the join / bounded-teardown / once-guard discipline that Close's guarantees rest on, and that the double-open and never-opened guards precede every side effect. Wall-clock bounds and actual leak freedom over histories are not decided.",
         "§4 C10"),
 "C11": ("decision tables of nextBackoffDelay, WithReconnectBackoff, react, one connectLoop iteration and one recvLoop iteration; dominance of TCPDown on write errors; call-site enumeration of the reconnect counter; T8 read-deadline policy of the in-frame read",
         "Decides the backoff arithmetic's branch structure (cap at T5, never ≤ 0, initial value, advance only through nextBackoffDelay), that every involuntary failure funnels into TCPDown exactly once unless teardown already owns the generation, that the reaction starts the reconnect loop before teardown iff not shut down, and the fence/publish/retry shape of the loop. Actual re-establishment against a peer and real-time delays are not decided.",
         "§4 C11"),
 "C20": ("who-may-call enumeration of every metric helper, ±1 body check, gauge inc/defer-dec pairing with dominance conditions, path-exact counting of incDataMsgSend, per-outcome counter decision tables of sendWaitReply/sendNoReply/drainSendCh/isCountedSendErr",
         "Decides that each counter/gauge is modified only at its documented chokepoint by exactly ±1, that gauges are paired with a deferred decrement on every exit, that the sent counter is bumped on exactly the paths where the transport accepted a data frame, and the documented counter set for every send outcome cell. Agreement with the peer's own counts over histories is not decided.",
         "§4 C20"),
 "C19": ("decision tables of the two pure linktest reducers and of one full iteration of the probe loop (loop-carried values included) against an oracle written from the suppression rules; option-validation tables; activity-stamp call-site enumeration",
         "Decides every ordering cell of the failure reducer and the pre-disconnect re-check, and the complete per-iteration behaviour of the probe loop: skip rules, probe, success reset, failure accounting with argument roles and fresh re-reads, threshold comparison, TCPDown, and what is carried to the next iteration. Real-time durations and accepted stamp races are not decided.",
         "§4 C19"),
 "C02": ("bounds/size/divisor obligations over the decode fragment decided by linear integer arithmetic (Fourier–Motzkin) on SSA values, with pre/postconditions, loop-phi invariants and slab invariants inferred inductively (Houdini); grammar-rejection facts proved at every success exit; recursion-cycle depth-parameter analysis; entry-point argument comparison; no-integer-wrap proof of every signed 64-bit + − × in the fragment (|result| ≤ 2^60 given buffers ≤ 2^40 bytes)",
         "Decides that every index, slice, binary.BigEndian read, divisor and allocation size reachable from Decode/DecodeOwned is in range / bounded by the input length for every input (so no bounds-check panic and no allocation driven by a claimed length), that every success exit of the decoders has rejected zero length-byte count, truncated header/payload, non-multiple payloads, short localized strings, undefined codes and over-deep nesting, that the recursion is depth-bounded, and that the copying and owning entry points run the same decoder. Does not decide the decoded values or re-encode equality.",
         "§4 C02"),
 "C01": ("constant and decision-table comparison of the format-code / width tables with SEMI E5; bit-provenance evaluation of the item header bytes on every path of appendHeaderBytesFC and cell table of headerLen; width-fact analysis of every encoding/binary operation and conversion-chain analysis of sign extension; term comparison of the length written by AppendTo with the length EncodedLen sizes; path analysis of the errored/raw guards; linear-arithmetic proof of the retained raw slice bounds; admission analysis of NewListItem",
         "Decides that the format codes and element widths used by encoders and decoder are the E5 table, that the item header is format<<2|count with the minimal big-endian length bytes and agrees with headerLen on every cell, that every binary operation in a width-k arm is a big-endian 8k-bit operation and signed elements are sign-extended, that AppendTo and EncodedLen use the same E5 length quantity per type, that errored items contribute nothing and decoded items re-emit exactly their own wire bytes, and that a list header counts exactly the children emitted. Element values and whole round trips are not decided.",
         "§4 C01"),
 "C03": ("bit-provenance (layout) evaluation of every header byte along the success paths of NewDataMessage, the re-stamping methods, the control-message factories and the serialisers, composed with the accessors; path-exact validation table of NewDataMessage; identity check of builder setters; acceptance tables of the decoders; value-flow of the built frame to the transport",
         "Decides, bit for bit, that the ten header bytes built for data and control messages are the E37 layout and that every accessor reads back what the builder wrote; that re-stamping changes exactly bytes 0–1 / 6–9 and shares body and decode state; that ToBytes and the socket path emit BE32(10+bodyLen) ‖ header ‖ body with the length taken from the buffers written; that construction rejects exactly stream > 127, W on an even function and errored bodies (builders included); and the decoders' acceptance tables. Body bytes and dynamic equality are not decided.",
         "§4 C03"),
 "C04": ("bounds obligations over the frame decoders and the receive path decided by linear integer arithmetic with inductively inferred contracts (including success-conditional postconditions such as 'a frame read without error is ≥ 10 bytes'); acceptance facts proved at every success exit with boundary-reachability queries; validate-before-allocate facts at the frame allocation; path-exact iteration table of readN (deadline policy, in-frame flag) and of recvLoop; reachability/who-may-call analysis of the lazy body decode",
         "Decides that no byte string or segmentation can make frame decoding or dispatch panic on a bounds check, that the three decode entry points and decodeOwnedFrame accept exactly 10 ≤ length ≤ cap / exact length / PType 0 / defined SType (boundaries included), that the receive path validates the length field before it sizes an allocation, that before every Read the deadline is now()+T8 iff a byte of the current frame has been read and the flag is shared across both reads of a frame, that a read error ends the loop without dispatch, and that the body is decoded lazily once under a sync.Once shared by all copies. Timing and kernel semantics are not decided.",
         "§4 C04"),
 "C12": ("origin analysis of reference-carrying values (fresh / caller's / internal field / global storage) with interprocedural summaries over the VTA call graph; who-may-write enumeration of every field and element of the immutable types with under-construction / once-guard classification of the written object; caller enumeration of the zero-copy bridge; sync.Once discipline of the lazy decode and memoized encoding",
         "Decides for every store into item/message/body/decode-state storage that the stored slice, map or raw pointer is fresh, a copy, or owned storage on a documented ownership-transfer path; for every exported function and method of those types that no returned slice/map/pointer is internal field storage; for every write to a field or element of those types that the written object is still under construction or the write runs under the object's own sync.Once; and that the lazy decode/encode run at most once and are shared by re-stamped copies. Race freedom is argued from these facts, not observed.",
         "§4 C12"),
 "C16": ("decision tables of the clamp functions; classification of every element appended to (or written into) a numeric item's values as clamp result / bound / widening / guarded conversion, with branch-fact analysis of the overflow switch; default-arm analysis of every constructor type switch; who-may-call analysis of wire.FromItem and dominance of the item.Error() gate; per-arm path analysis of childClean over every concrete item type; panic/assertion scan of the constructor code",
         "Decides that the clamp helpers clamp to the nearest bound on every ordering cell, that no constructor path stores an unclamped caller value where it may be out of range (F4 overflow switch included), that unsupported argument types always yield an errored item, that a constructed item becomes a message body only inside NewDataMessage behind its Error() gate and every session send path builds through it, that a list is reported clean only if every child of every concrete type has no deferred error, that Equal refuses errored items first, and that constructor code contains no explicit panic or unchecked assertion. Numeric results beyond the clamp tables are not decided.",
         "§4 C16"),
 "C13": ("sibling-agreement analysis between the strict encoder and the strict parser: the set of characters whose comparison leads to the escape write versus the set of characters the parser tests inside a quoted run; literal/digit-table extraction of the numeric-token writer and use analysis of every parsed token value; constant analysis (through closure bindings) of the float formatting and parsing parameters; token sequence of the header writer versus the tokens the header parser tests",
         "Decides necessary conditions of the strict SML round trip: the encoder escapes the quote character in use, the backslash and every character the parser gives a meaning inside a quoted run; non-printable bytes are written as 0xHH tokens that the parser reads with base 0, bounds by 255 and stores as one byte on every branch; floats are written with 'G' at 9/17 digits and the item's own bit size and parsed at that bit size; the header tokens written are the ones parsed. The round trip itself (all messages, all option combinations) is not decided.",
         "§4 C13"),
 "C15": ("sibling-agreement analysis between secs2 ToSML and the sml encoder: the strconv conversions (kind, base, format, precision, bit size) used per numeric family and per branch, the literal tokens of booleans, the write sequences of the list renderers on the empty and non-empty paths, and the encoder's default option constants",
         "Decides necessary conditions of byte-identity of the two renderers: same signedness/base for integers in every branch, same 'G'/9/17/bit-size parameters for floats, same boolean tokens, indentation written before every list opener (empty list included) with the same unit and depth rule, and encoder defaults equal to the constants baked into ToSML. Byte equality on all item trees is not decided.",
         "§4 C15"),
 "C17": ("bit-provenance (layout) evaluation of the SECS-I block header on every path of buildHeader composed with the block accessors; append-sequence and slice-range analysis of block.appendTo / parseBlock (length byte, summed range, checksum byte order); linear-arithmetic bounds obligations over the block/message/line-reader code with inferred contracts; path-exact decision table of assembler.accept against the E4 receive algorithm plus field-update tables of reset/startMessage/appendBlock; path table of the receive handshake",
         "Decides, bit for bit, the E4 block header layout and its inversion by the accessors; that the length byte is 10+body, the checksum the big-endian low 16 bits of the sum over header+body only, and that parseBlock checks exactly that; that no index/slice/allocation in the block, message and line-reader code can go out of range; the complete accept decision table (device, direction, T4 discard, duplicate drop independent of an open partial, continuation, abort-and-restart) and the exact state updates that keep the T4 base and the duplicate record right; and the NAK-after-silence / ACK-before-delivery handshake. Behaviour against a real E4 peer and real-time T4 are not decided.",
         "§4 C17"),
 "C18": ("iteration table of the sendBlock retry loop with the loop-carried retry counter (enum-infeasible paths pruned); path table of receiveBlock's handshake per failure class; value-flow of the generation's single inbound sink to the idle path and every send; who-may-call enumeration of the line I/O methods; field-update analysis of the duplicate record",
         "Decides structural necessary conditions of exactly-once delivery over a faulty line: at most retryLimit+1 attempts per block with the counter advanced on every failed attempt and reset only after a yielded block was received and delivered, ErrSendFailed on exhaustion; NAK (after silence where framing was lost) or ACK on every receive path and no block returned on failure; one assembler feed per generation shared by idle and contention-yield receives; the line driven only by the line engine; the duplicate record surviving message completion. Exactly-once, ordering and deadlock freedom under fault patterns are runtime behaviour and are not decided.",
         "§4 C18"),
 "C14": ("bounds/size obligations over the parse fragment decided by linear integer arithmetic on SSA values with inductively inferred contracts and Parser field invariants (data = input[pos:], len = len(input), 0 ≤ pos ≤ len); recursion-cycle depth-parameter analysis; provenance of every ParseError offset and decision table of the line/column scan; who-may-write enumeration of package variables and Parser/Encoder fields; no-integer-wrap proof of every signed 64-bit + − × in the fragment (|result| ≤ 2^60 given buffers ≤ 2^40 bytes)",
         "Decides that every index/slice of the scan window, every forward/backward step and every allocation size (make, Builder.Grow) reachable from the Parse entry points is in range / bounded by the unread input for every text, that list nesting is depth-bounded before recursion, that every syntax error's offset is a parser position clamped to len(input) with line/column derived from exactly that prefix, and that parser/encoder instances share no mutable state. Does not decide running time or messages' values.",
         "§4 C14"),
}

NOT_YET = {}

def main():
    props = [json.loads(l) for l in open("/verif/properties.jsonl")]
    checks = []
    na = []
    for p in props:
        pid = p["id"]
        if pid in CLAIMED:
            tech, text, ref = CLAIMED[pid]
            checks.append({
                "property_id": pid,
                "quick_cmd": f"/verif/bin/secscheck -property {pid} -tier quick",
                "thorough_cmd": f"/verif/bin/secscheck -property {pid} -tier thorough",
                "evidence_file": f"/verif/evidence/{pid}.json",
                "replay_cmd_template": "/verif/bin/secscheck -replay {path}",
                "engine": "secscheck",
                "level_claimed": {"category": "other", "text": text, "design_ref": "DESIGN.md " + ref},
                "level_note": "Trusted base: go/types, go/ssa, VTA call graph (CHA fallback) over /repo's current working tree; oracle tables transcribed from SEMI E5/E37/E4 and the property statement inside /verif/checker/rules_*.go. Decides the structural clauses listed in the evidence file's coverage.explanation, not the whole behavioural property.",
                "technique": "static analysis: " + tech,
            })
        else:
            na.append({"property_id": pid, "reason": NOT_YET.get(pid, "static rules for this property are not armed yet in this revision (see DESIGN.md §4 for the planned clauses); no dynamic substitute is used")})
    m = {
        "version": 1,
        "setup_cmd": "cd /verif/checker && GOFLAGS=-mod=vendor GOPROXY=off GOWORK=off go build -o /verif/bin/secscheck .",
        "hooks": {
            "guard": "verif",
            "enable": "none — static analysis reads source; no hook files exist in /repo",
            "baseline_off_cmd": BASELINE_OFF,
            "source_commits": [],
            "add_only": True,
        },
        "engines": [{"name": "secscheck", "path": "/verif/checker", "serves_properties": sorted(CLAIMED), "kind_free_text": "repository-specific static analyser on go/packages + go/ssa + VTA call graph: decision-table extraction, dominance/ordering, who-may-call/write, bounds/taint, layout and immutability rules"}],
        "checks": checks,
        "not_applicable": na,
        "notes": "All checks are static: they load /repo's current working tree with go/packages, build SSA and decide structural necessary conditions. No repository code is executed. Known findings: /verif/known_findings.json.",
    }
    json.dump(m, open("/verif/MANIFEST.json", "w"), indent=1)
    print("claimed", len(checks), "not_applicable", len(na))

if __name__ == "__main__":
    main()
