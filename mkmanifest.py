#!/usr/bin/env python3
"""Regenerates /verif/MANIFEST.json from the table below (kept in one place so the
manifest always validates). Run: python3 mkmanifest.py"""
import json, os, subprocess

BASELINE_OFF = "cd /repo && go test -mod=mod -json -vet=off -count=1 -timeout 25m ./..."

# id -> (technique, level text, design ref, level note)
CLAIMED = {
 "C05": ("decision-table extraction from SSA paths (transition, step, fireTransition, emit) compared cell-by-cell with the E37 table; who-may-write enumeration of supervisor.state; dominance ordering in Close",
         "Structural necessary conditions of the E37 state behaviour decided for every path/writer in the source: the full transition and step decision tables, the complete writer set of the state word, the notification chain's single-sender/ordering shape and Close's fence→requestClose→wait→stop ordering. Does not decide interleavings or timing.",
         "§4 C05"),
}

NOT_YET = {}

def main():
    props = [json.loads(l) for l in open("/verif/properties.jsonl")]
    checks = []
    na = []
    for p in props:
        pid = p["id"]
        if pid in CLAIMED:
            tech, text, ref = CLAIMED[pid]
            checks.append({
                "property_id": pid,
                "quick_cmd": f"/verif/bin/secscheck -property {pid} -tier quick",
                "thorough_cmd": f"/verif/bin/secscheck -property {pid} -tier thorough",
                "evidence_file": f"/verif/evidence/{pid}.json",
                "replay_cmd_template": "/verif/bin/secscheck -replay {path}",
                "engine": "secscheck",
                "level_claimed": {"category": "other", "text": text, "design_ref": "DESIGN.md " + ref},
                "level_note": "Trusted base: go/types, go/ssa, VTA call graph (CHA fallback) over /repo's current working tree; oracle tables transcribed from SEMI E5/E37/E4 and the property statement inside /verif/checker/rules_*.go. Decides the structural clauses listed in the evidence file's coverage.explanation, not the whole behavioural property.",
                "technique": "static analysis: " + tech,
            })
        else:
            na.append({"property_id": pid, "reason": NOT_YET.get(pid, "static rules for this property are not armed yet in this revision (see DESIGN.md §4 for the planned clauses); no dynamic substitute is used")})
    m = {
        "version": 1,
        "setup_cmd": "cd /verif/checker && GOFLAGS=-mod=vendor GOPROXY=off GOWORK=off go build -o /verif/bin/secscheck .",
        "hooks": {
            "guard": "verif",
            "enable": "none — static analysis reads source; no hook files exist in /repo",
            "baseline_off_cmd": BASELINE_OFF,
            "source_commits": [],
            "add_only": True,
        },
        "engines": [{"name": "secscheck", "path": "/verif/checker", "serves_properties": sorted(CLAIMED), "kind_free_text": "repository-specific static analyser on go/packages + go/ssa + VTA call graph: decision-table extraction, dominance/ordering, who-may-call/write, bounds/taint, layout and immutability rules"}],
        "checks": checks,
        "not_applicable": na,
        "notes": "All checks are static: they load /repo's current working tree with go/packages, build SSA and decide structural necessary conditions. No repository code is executed. Known findings: /verif/known_findings.json.",
    }
    json.dump(m, open("/verif/MANIFEST.json", "w"), indent=1)
    print("claimed", len(checks), "not_applicable", len(na))

if __name__ == "__main__":
    main()
